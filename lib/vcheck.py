#!/usr/bin/env python3
"""Orchestrator for the mosdns verification checks (see DESIGN.md §2).

  vcheck.py setup                       build everything (Coq development, gofacts, harness)
  vcheck.py check Cxx [--tier T] [--replay FILE]

One check run = regenerate Gen/*.v from /repo, build the property's theorems,
build and run the Go driver against /repo's working tree (-tags verif), judge
every observed case inside Coq (vm_compute of Judge.Cxx.agree / spec), decide,
write evidence/Cxx.json.
"""
import sys, os, json, time, subprocess, hashlib, re, fcntl, shutil, importlib.util, glob, signal

ROOT = os.path.dirname(os.path.dirname(os.path.abspath(__file__)))
REPO = os.environ.get("VERIF_REPO", "/repo")
COQ = os.path.join(ROOT, "coq")
HARNESS = os.path.join(ROOT, "harness")
GOFACTS = os.path.join(ROOT, "tools", "gofacts")
WORK = os.path.join(ROOT, ".work")
NPROC = os.cpu_count() or 4

GOENV = dict(os.environ, GOFLAGS="-mod=mod", GOPROXY="off", GOSUMDB="off", GOTOOLCHAIN="local",
             CGO_ENABLED=os.environ.get("CGO_ENABLED", "0"))


def log(*a):
    print("[vcheck]", *a, file=sys.stderr, flush=True)


def sh(cmd, cwd=None, timeout=None, env=None, stdin=None):
    """Run cmd; returns (rc, combined output). rc=124 on timeout."""
    try:
        p = subprocess.Popen(cmd, cwd=cwd, env=env, stdout=subprocess.PIPE, stderr=subprocess.STDOUT,
                             stdin=subprocess.DEVNULL if stdin is None else subprocess.PIPE,
                             start_new_session=True)
        try:
            out, _ = p.communicate(input=stdin, timeout=timeout)
        except subprocess.TimeoutExpired:
            try:
                os.killpg(p.pid, signal.SIGKILL)
            except Exception:
                pass
            out, _ = p.communicate()
            return 124, out.decode("utf-8", "replace")
        return p.returncode, out.decode("utf-8", "replace")
    except FileNotFoundError as e:
        return 127, str(e)


class Lock:
    def __init__(self, name):
        os.makedirs(WORK, exist_ok=True)
        self.path = os.path.join(WORK, name + ".lock")

    def __enter__(self):
        self.f = open(self.path, "w")
        fcntl.flock(self.f, fcntl.LOCK_EX)
        return self

    def __exit__(self, *a):
        fcntl.flock(self.f, fcntl.LOCK_UN)
        self.f.close()


def write_if_changed(path, content):
    try:
        if open(path).read() == content:
            return False
    except FileNotFoundError:
        pass
    with open(path, "w") as f:
        f.write(content)
    return True


# ----------------------------------------------------------------------------
# facts + coq build


def newest_mtime(paths):
    m = 0
    for p in paths:
        try:
            m = max(m, os.path.getmtime(p))
        except OSError:
            pass
    return m


def gen_facts():
    """Regenerate coq/Gen/*.v from the repository. Returns list of MISSING lines."""
    with Lock("gofacts"):
        binp = os.path.join(GOFACTS, "gofacts")
        srcs = glob.glob(os.path.join(GOFACTS, "*.go"))
        if not os.path.exists(binp) or os.path.getmtime(binp) < newest_mtime(srcs):
            rc, out = sh(["go", "build", "-o", "gofacts", "."], cwd=GOFACTS, env=GOENV, timeout=300)
            if rc != 0:
                raise RuntimeError("gofacts build failed:\n" + out)
        os.makedirs(os.path.join(COQ, "Gen"), exist_ok=True)
        rc, out = sh([binp, "-repo", REPO, "-out", os.path.join(COQ, "Gen")], env=GOENV, timeout=120)
        if rc != 0:
            raise RuntimeError("gofacts failed:\n" + out)
        return [l for l in out.splitlines() if l.startswith("MISSING")]


def coq_project():
    files = []
    for d, _, fs in os.walk(COQ):
        for f in fs:
            if f.endswith(".v"):
                rel = os.path.relpath(os.path.join(d, f), COQ)
                if rel.startswith("."):
                    continue
                files.append(rel)
    files.sort()
    content = "-Q . Verif\n-arg -w -arg -notation-overridden,-deprecated-hint-without-locality,-deprecated-instance-without-locality\n" + "\n".join(files) + "\n"
    changed = write_if_changed(os.path.join(COQ, "_CoqProject"), content)
    if changed or not os.path.exists(os.path.join(COQ, "Makefile")):
        rc, out = sh(["coq_makefile", "-f", "_CoqProject", "-o", "Makefile"], cwd=COQ, timeout=120)
        if rc != 0:
            raise RuntimeError("coq_makefile failed:\n" + out)


def coq_make(targets, timeout=1500):
    """make the given .vo targets (or everything when targets is None). Serialised by a lock."""
    with Lock("coq"):
        coq_project()
        cmd = ["make", "-j%d" % NPROC, "-k"] + (targets or [])
        rc, out = sh(cmd, cwd=COQ, timeout=timeout)
        return rc, out


def private_build(priv, targets, timeout=5400):
    """Copy the .v sources of the development to `priv` and build `targets` there from nothing."""
    shutil.rmtree(priv, ignore_errors=True)
    files = []
    for d, _, fs in os.walk(COQ):
        for f in fs:
            if f.endswith(".v"):
                rel = os.path.relpath(os.path.join(d, f), COQ)
                if rel.startswith("."):
                    continue
                files.append(rel)
                os.makedirs(os.path.join(priv, os.path.dirname(rel)), exist_ok=True)
                shutil.copyfile(os.path.join(COQ, rel), os.path.join(priv, rel))
    files.sort()
    with open(os.path.join(priv, "_CoqProject"), "w") as f:
        f.write("-Q . Verif\n-arg -w -arg -notation-overridden,-deprecated-hint-without-locality,-deprecated-instance-without-locality\n" + "\n".join(files) + "\n")
    rc, out = sh(["coq_makefile", "-f", "_CoqProject", "-o", "Makefile"], cwd=priv, timeout=120)
    if rc != 0:
        return rc, out
    return sh(["make", "-j%d" % NPROC] + list(targets), cwd=priv, timeout=timeout)


def coqc_file(path, timeout=600, out_vo=None):
    cmd = ["coqc", "-Q", COQ, "Verif", "-w", "-notation-overridden"]
    if out_vo:
        cmd += ["-o", out_vo]
    cmd.append(path)
    return sh(cmd, cwd=os.path.dirname(path), timeout=timeout)


# ----------------------------------------------------------------------------
# harness


def build_driver(name):
    with Lock("harness"):
        try:
            shutil.copyfile(os.path.join(REPO, "go.sum"), os.path.join(HARNESS, "go.sum"))
        except OSError:
            pass
        os.makedirs(os.path.join(HARNESS, "bin"), exist_ok=True)
        rc, out = sh(["go", "build", "-tags", "verif", "-o", os.path.join("bin", name), "./cmd/" + name],
                     cwd=HARNESS, env=GOENV, timeout=900)
        return rc, out


def run_driver(name, args, timeout, extra_env=None):
    env = dict(GOENV)
    if extra_env:
        env.update(extra_env)
    return sh([os.path.join(HARNESS, "bin", name)] + args, cwd=HARNESS, env=env, timeout=timeout)


# ----------------------------------------------------------------------------
# judging


# When the judge cannot be built with the facts regenerated from the changed tree (a fact could not be
# extracted any more, or a model that is parametrised by it does not type-check), the models are still
# wanted for the search for a failing input: they are then built in a private copy with the Gen/*.v files
# of the last commit of /verif (the facts of the tree the development was proved against).
JUDGE_COQ = [None]


def fallback_judge(prop, workdir):
    priv = os.path.join(workdir, "coqfallback")
    shutil.rmtree(priv, ignore_errors=True)
    files = []
    for d, _, fs in os.walk(COQ):
        for f in fs:
            if f.endswith(".v"):
                rel = os.path.relpath(os.path.join(d, f), COQ)
                if rel.startswith("."):
                    continue
                files.append(rel)
                os.makedirs(os.path.join(priv, os.path.dirname(rel)), exist_ok=True)
                shutil.copyfile(os.path.join(COQ, rel), os.path.join(priv, rel))
    for rel in files:
        if rel.startswith("Gen/"):
            rc, out = sh(["git", "-C", ROOT, "show", "HEAD:coq/" + rel], timeout=60)
            if rc == 0 and out.strip():
                with open(os.path.join(priv, rel), "w") as f:
                    f.write(out)
    files.sort()
    with open(os.path.join(priv, "_CoqProject"), "w") as f:
        f.write("-Q . Verif\n-arg -w -arg -notation-overridden,-deprecated-hint-without-locality,-deprecated-instance-without-locality\n" + "\n".join(files) + "\n")
    rc, out = sh(["coq_makefile", "-f", "_CoqProject", "-o", "Makefile"], cwd=priv, timeout=120)
    if rc != 0:
        return None
    rc, out = sh(["make", "-j%d" % NPROC, prop.JUDGE.replace(".", "/") + ".vo"], cwd=priv, timeout=1800)
    return priv if rc == 0 else None


def load_cases(path):
    cases, summary = [], {}
    with open(path) as f:
        for line in f:
            line = line.strip()
            if not line:
                continue
            try:
                o = json.loads(line)
            except json.JSONDecodeError:
                continue
            if "summary" in o:
                summary = o["summary"]
            elif "coq" in o or "violation" in o:
                cases.append(o)
    return cases, summary


NUMS = re.compile(r"\d+")


def parse_list(out, name):
    """Parse `name = [a; b; ...]` or `name = n` printed by coqc (possibly wrapped)."""
    m = re.search(r"(?s)\b%s\s*=\s*(.*?)\n\s*:\s" % re.escape(name), out)
    if not m:
        return None
    body = m.group(1)
    return [int(x) for x in NUMS.findall(re.sub(r"%[A-Za-z]+", "", body))]


def judge_cases(prop, cases, workdir, shard_size=400, timeout=900):
    """Evaluate agree/spec/nontrivial for all cases inside Coq.
    Returns dict(bad_agree=[idx], bad_spec=[idx], nontrivial=int, error=str|None)."""
    mod = prop.JUDGE
    shards = [cases[i:i + shard_size] for i in range(0, len(cases), shard_size)]
    procs = []
    for k, sh_cases in enumerate(shards):
        vpath = os.path.join(workdir, "cases_%d.v" % k)
        with open(vpath, "w") as f:
            f.write("From Verif Require Import Base.Prelude %s.\nOpen Scope N_scope.\n" % mod)
            f.write("Definition cases : list %s.case := [\n" % mod)
            f.write(";\n".join("  (" + c["coq"] + ")" for c in sh_cases))
            f.write("\n].\n")
            f.write("Definition bad_agree := Eval vm_compute in bad_idx %s.agree cases.\n" % mod)
            f.write("Definition bad_spec := Eval vm_compute in bad_idx %s.spec cases.\n" % mod)
            f.write("Definition n_nontrivial := Eval vm_compute in count_true %s.nontrivial cases.\n" % mod)
            f.write("Print bad_agree.\nPrint bad_spec.\nPrint n_nontrivial.\n")
            if getattr(prop, "HAS_RELAXED", False):
                f.write("Definition bad_relaxed := Eval vm_compute in bad_idx %s.spec_relaxed cases.\nPrint bad_relaxed.\n" % mod)
        procs.append((k, vpath))
    res = {"bad_agree": [], "bad_spec": [], "bad_relaxed": [], "nontrivial": 0, "error": None}
    # run shards in parallel, bounded
    running = []
    pending = list(procs)
    outputs = {}
    t_end = time.time() + timeout
    while pending or running:
        while pending and len(running) < max(1, NPROC // 2):
            k, vpath = pending.pop(0)
            p = subprocess.Popen(["coqc", "-Q", JUDGE_COQ[0] or COQ, "Verif", "-w", "-notation-overridden",
                                  "-o", vpath + "o", vpath], cwd=workdir,
                                 stdout=subprocess.PIPE, stderr=subprocess.STDOUT, start_new_session=True)
            running.append((k, p))
        for k, p in list(running):
            if p.poll() is not None:
                outputs[k] = (p.returncode, p.stdout.read().decode("utf-8", "replace"))
                running.remove((k, p))
        if time.time() > t_end:
            for k, p in running:
                try:
                    os.killpg(p.pid, signal.SIGKILL)
                except Exception:
                    pass
            res["error"] = "coqc timed out while judging cases"
            return res
        time.sleep(0.05)
    for k, _ in procs:
        rc, out = outputs[k]
        if rc != 0:
            res["error"] = "coqc failed on cases_%d.v:\n%s" % (k, out[-3000:])
            return res
        ba, bs, nt = parse_list(out, "bad_agree"), parse_list(out, "bad_spec"), parse_list(out, "n_nontrivial")
        if ba is None or bs is None or nt is None:
            res["error"] = "could not parse coqc output for cases_%d.v:\n%s" % (k, out[-2000:])
            return res
        base = k * shard_size
        res["bad_agree"] += [base + i for i in ba]
        res["bad_spec"] += [base + i for i in bs]
        res["nontrivial"] += nt[0] if nt else 0
        if getattr(prop, "HAS_RELAXED", False):
            br = parse_list(out, "bad_relaxed")
            if br is None:
                res["error"] = "could not parse bad_relaxed for cases_%d.v" % k
                return res
            res["bad_relaxed"] += [base + i for i in br]
    return res


# ----------------------------------------------------------------------------
# properties


def load_prop(pid):
    path = os.path.join(ROOT, "props", pid.lower() + ".py")
    if not os.path.exists(path):
        raise SystemExit("unknown property " + pid)
    spec = importlib.util.spec_from_file_location("prop_" + pid, path)
    m = importlib.util.module_from_spec(spec)
    spec.loader.exec_module(m)
    return m


def known_findings(pid):
    try:
        kf = json.load(open(os.path.join(ROOT, "known_findings.json")))
    except FileNotFoundError:
        return []
    return [e for e in kf.get("findings", []) if e.get("property") == pid and e.get("status") == "open"]


def matches_finding(case, finding):
    m = finding.get("match", {})
    if not m:
        return False
    d = dict(case.get("desc", {}))
    d["fkey"] = case.get("fkey", "")
    return all(str(d.get(k)) == str(v) for k, v in m.items())


THEOREM_RE = re.compile(r"^\s*(Theorem|Lemma|Corollary|Example|Fact|Proposition)\s+([A-Za-z0-9_']+)", re.M)


def check_properties_file(prop, workdir):
    """Compile Properties/Cxx.v on its own (its dependencies were built by make) and collect
    theorem names and the Print Assumptions output."""
    vfile = os.path.join(COQ, prop.COQ_PROPS)
    src = open(vfile).read()
    names = [m.group(2) for m in THEOREM_RE.finditer(src)]
    rc, out = coqc_file(vfile, timeout=900, out_vo=os.path.join(workdir, os.path.basename(vfile) + "o"))
    axioms = []
    closed = out.count("Closed under the global context")
    for m in re.finditer(r"(?s)Axioms:\s*\n(.*?)(?:\n\S|\Z)", out):
        for l in m.group(1).splitlines():
            l = l.strip()
            if l and ":" in l:
                axioms.append(l.split(":")[0].strip())
    discharged = len(names)
    err = None
    if rc != 0:
        err = out[-3000:]
        m = re.search(r"line (\d+), characters", out)
        if m:
            ln = int(m.group(1))
            pre = "\n".join(src.splitlines()[:ln])
            done = [mm.group(2) for mm in THEOREM_RE.finditer(pre)]
            discharged = max(0, len(done) - 1)
        else:
            discharged = 0
    forbidden = re.findall(r"\b(Admitted|admit|Axiom|Parameter|Conjecture|Unset Guard|bypass_check)\b", src)
    return dict(names=names, discharged=discharged, rc=rc, err=err, axioms=sorted(set(axioms)),
                closed=closed, forbidden=forbidden, out=out)


REQ_RE = re.compile(r"(?:From\s+Verif\s+)?Require\s+(?:Import\s+|Export\s+)?([^.]*(?:\.[A-Za-z_][^.\s]*)*)\s*\.(?:\s|$)")


def dep_closure(rel_files):
    """Transitive closure of the development's own files required by the given ones
    (parsed from the `From Verif Require Import A.B C.D.` lines)."""
    seen, todo = set(), list(rel_files)
    while todo:
        f = todo.pop()
        if f in seen or not os.path.exists(os.path.join(COQ, f)):
            continue
        seen.add(f)
        txt = re.sub(r"\(\*.*?\*\)", "", open(os.path.join(COQ, f)).read(), flags=re.S)
        for m in re.finditer(r"\bRequire\s+(?:Import\s+|Export\s+)?((?:[A-Za-z_][\w']*(?:\.[A-Za-z_][\w']*)*\s*)+)\.", txt):
            for name in m.group(1).split():
                if name.startswith("Verif."):
                    name = name[len("Verif."):]
                cand = name.replace(".", "/") + ".v"
                if os.path.exists(os.path.join(COQ, cand)):
                    todo.append(cand)
    return sorted(seen)


def scan_forbidden(rel_files=None):
    bad = []
    pat = re.compile(r"\b(Admitted|admit|Axiom|Axioms|Parameter|Parameters|Conjecture|Admit Obligations|bypass_check)\b|Unset Guard Checking|Unset Positivity Checking|Unset Universe Checking|-type-in-type|-impredicative-set")
    files = rel_files
    if files is None:
        files = []
        for d, _, fs in os.walk(COQ):
            for f in fs:
                if f.endswith(".v"):
                    files.append(os.path.relpath(os.path.join(d, f), COQ))
    for rel in files:
        p = os.path.join(COQ, rel)
        txt = open(p).read()
        txt = re.sub(r"\(\*.*?\*\)", "", txt, flags=re.S)
        for m in pat.finditer(txt):
            bad.append("%s: %s" % (rel, m.group(0)))
        # Variable/Hypothesis outside a Section declare axioms too
        depth = 0
        for line in txt.splitlines():
            ls = line.strip()
            if re.match(r"Section\s", ls):
                depth += 1
            elif re.match(r"End\s", ls) and depth > 0:
                depth -= 1
            elif depth == 0 and re.match(r"(Variable|Variables|Hypothesis|Hypotheses|Context)\b", ls):
                bad.append("%s: %s outside a Section" % (rel, ls.split()[0]))
    return bad


def write_replay(pid, payload):
    d = os.path.join(ROOT, "replays", pid)
    os.makedirs(d, exist_ok=True)
    h = hashlib.sha1(json.dumps(payload, sort_keys=True).encode()).hexdigest()[:12]
    path = os.path.join(d, h + ".json")
    with open(path, "w") as f:
        json.dump(payload, f, indent=1)
    return os.path.relpath(path, ROOT)


def run_and_judge(prop, tier, seed, workdir, phase, extra_args=None):
    """Run the driver and judge. Returns dict with cases, verdicts, summary, driver_rc, driver_out."""
    out_path = os.path.join(workdir, "cases_%s.jsonl" % phase)
    args = ["-seed", str(seed), "-tier", tier, "-out", out_path] + list(prop.driver_args(tier, seed, phase))
    if extra_args:
        args += extra_args
    tmo = getattr(prop, "DRIVER_TIMEOUT", {}).get(tier, 600 if tier == "quick" else 7200)
    if phase == "search":
        tmo *= 4
    if phase == "recheck":
        tmo = 60
    rc, out = run_driver(prop.DRIVER, args, tmo, getattr(prop, "DRIVER_ENV", None))
    cases, summary = ([], {})
    if os.path.exists(out_path):
        cases, summary = load_cases(out_path)
    # A driver may report an observation that cannot be written as a case of its judge (the real code did
    # something the harness has no vocabulary for, e.g. it entered a callback in a state the property
    # excludes): such a line carries "violation": <reason> and counts as a failure of the property's oracle.
    harness_viol = [c for c in cases if c.get("violation")]
    cases = [c for c in cases if not c.get("violation")]
    # dedup by literal
    seen, uniq = set(), []
    for c in cases:
        h = hashlib.sha1(c["coq"].encode()).digest()
        if h in seen:
            continue
        seen.add(h)
        uniq.append(c)
    verdict = {"bad_agree": [], "bad_spec": [], "bad_relaxed": [], "nontrivial": 0, "error": None}
    if uniq:
        verdict = judge_cases(prop, uniq, workdir,
                              shard_size=getattr(prop, "SHARD", 400),
                              timeout=getattr(prop, "JUDGE_TIMEOUT", {}).get(tier, 900 if tier == "quick" else 7200))
    # A Go runtime crash of the driver that the property itself excludes (e.g. "fatal error: concurrent map
    # writes" for a property that says operations do not race on memory) is a failing history: the run
    # (driver, seed, tier) is the replay.
    if rc != 0:
        for rx, why in getattr(prop, "CRASH_VIOLATION", []):
            mm = re.search(rx, out)
            if mm:
                at = max(0, mm.start() - 200)
                harness_viol.append({"id": "driver-crash", "violation": why,
                                     "desc": {"runtime_output": out[at:at + 2500]}, "replay": []})
                break
    for c in harness_viol:
        c.setdefault("coq", "(* harness-level observation: %s *)" % c["violation"])
        uniq.append(c)
        verdict["bad_spec"].append(len(uniq) - 1)
        verdict.setdefault("bad_relaxed", []).append(len(uniq) - 1)
    return dict(cases=cases + harness_viol, uniq=uniq, verdict=verdict, summary=summary, driver_rc=rc, driver_out=out)


def smallest(cases, idxs):
    return min((cases[i] for i in idxs), key=lambda c: len(c["coq"]))


def do_check(pid, tier, replay):
    t0 = time.time()
    prop = load_prop(pid)
    seed = int(os.environ.get("VERIF_SEED", "1") or "1")
    workdir = os.path.join(WORK, "%s.%d" % (pid, os.getpid()))
    os.makedirs(workdir, exist_ok=True)
    violations = []      # list of (replay_path, suffix)
    known_lines = []
    notes = []
    ev_cov = {}
    try:
        # 1. facts
        missing = gen_facts()
        # 2. proofs
        jt = prop.JUDGE.replace(".", "/") + ".vo"
        targets = [prop.COQ_PROPS + "o", jt]
        priv = None
        priv_err = None
        if tier == "thorough":
            # from-scratch rebuild of everything the property depends on, in a private copy of the
            # sources (nothing of the shared tree is deleted: other checks may be using its .vo files)
            priv = os.path.join(workdir, "coqfull")
            rc_p, out_p = private_build(priv, targets)
            if rc_p != 0:
                priv_err = "clean rebuild of %s failed:\n%s" % (" ".join(targets), out_p[-2000:])
        rc_j, out_make = coq_make([jt])
        judge_ok = rc_j == 0
        coq_make([prop.COQ_PROPS + "o"])
        pinfo = check_properties_file(prop, workdir)
        forbidden = scan_forbidden(dep_closure([prop.COQ_PROPS, prop.JUDGE.replace('.', '/') + '.v']))
        proof_broken = None
        judge_fb = None
        if pinfo["rc"] != 0:
            proof_broken = "theorem file %s no longer compiles: %s" % (prop.COQ_PROPS, (pinfo["err"] or "")[-1500:])
        elif forbidden:
            proof_broken = "forbidden constructs in the development: " + "; ".join(forbidden[:5])
        coqchk_out = None
        if priv_err and not proof_broken:
            proof_broken = priv_err
        if tier == "thorough" and pinfo["rc"] == 0 and not priv_err and getattr(prop, "COQCHK", True):
            lib = "Verif." + prop.COQ_PROPS[:-2].replace("/", ".")
            rc_chk, coqchk_out = sh(["coqchk", "-silent", "-o", "-Q", priv, "Verif", lib], cwd=priv, timeout=5400)
            if rc_chk != 0:
                proof_broken = "coqchk rejected %s: %s" % (lib, coqchk_out[-1500:])
        if priv:
            shutil.rmtree(priv, ignore_errors=True)

        # 3. driver
        rc_b, out_b = build_driver(prop.DRIVER)
        if rc_b != 0:
            # the code the harness is written against has changed shape: the correspondence cannot be run, so
            # the property is no longer shown to hold
            res = dict(cases=[], uniq=[], verdict={"bad_agree": [], "bad_spec": [], "nontrivial": 0,
                                                   "error": "harness driver %s does not build against %s:\n%s" % (
                                                       prop.DRIVER, REPO, out_b[-3000:])},
                       summary={}, driver_rc=0, driver_out="")
        elif not judge_ok:
            fb = fallback_judge(prop, workdir)
            if fb:
                # models built with the committed facts: good enough to look for a failing input
                JUDGE_COQ[0] = fb
                judge_fb = "judge module does not build with the facts regenerated from this tree " \
                           "(judged with the committed facts instead):\n" + out_make[-1500:]
                res = run_and_judge(prop, tier, seed, workdir, "main")
            else:
                res = dict(cases=[], uniq=[], verdict={"bad_agree": [], "bad_spec": [], "nontrivial": 0,
                                                       "error": "judge module does not build:\n" + out_make[-3000:]},
                           summary={}, driver_rc=0, driver_out="")
        elif replay:
            rp = json.load(open(replay))
            extra = rp.get("driver_replay_args")
            if extra is None:
                print("replay file has no re-runnable case (%s)" % rp.get("kind"))
                return 1
            res = run_and_judge(prop, rp.get("tier", tier), rp.get("seed", seed), workdir, "replay", extra)
        else:
            res = run_and_judge(prop, tier, seed, workdir, "main")
        v = res["verdict"]
        uniq = res["uniq"]

        # 4. decide
        def report_case(c, why, model_ok):
            payload = dict(property=pid, kind="failing-input", tier=tier, seed=seed, why=why,
                           case=c, driver=prop.DRIVER,
                           driver_replay_args=c.get("replay"),
                           note="spec_%s rejected the implementation's observation on this input" % pid)
            return write_replay(pid, payload)

        kfs = known_findings(pid)
        corr_broken = None
        if judge_fb and not proof_broken:
            proof_broken = judge_fb
        if v["error"]:
            corr_broken = v["error"]
        if res["driver_rc"] != 0:
            corr_broken = (corr_broken or "") + "\ndriver %s exited with status %d:\n%s" % (
                prop.DRIVER, res["driver_rc"], res["driver_out"][-3000:])
        if not uniq and not corr_broken:
            corr_broken = "driver produced no cases"

        spec_fail = [i for i in v["bad_spec"]]
        unlisted = []
        for i in spec_fail:
            c = uniq[i]
            kf = next((f for f in kfs if matches_finding(c, f)), None)
            if kf and i in v.get("bad_relaxed", []):
                kf = None  # fails for more than the listed finding
            if kf:
                line = "KNOWN-FINDING: property=%s %s" % (pid, kf.get("what", ""))
                if line not in known_lines:
                    known_lines.append(line)
            else:
                unlisted.append(i)
        # A failure of the property's oracle that comes from the harness's own timing on an overloaded machine
        # (a call "did not return" within the hang timeout, an event seen one step late) does not reproduce when
        # the case runs alone: a small number of failing cases is re-run alone SPEC_RECHECK_RUNS times each (more
        # where the code under test makes random choices of its own); a case that is clean every time is recorded
        # as unstable and not reported. Deterministic failures are unaffected.
        unstable_spec = []
        nruns = getattr(prop, "SPEC_RECHECK_RUNS", 5)
        if unlisted and len(unlisted) <= 6 and not replay and (judge_ok or JUDGE_COQ[0]):
            keep = []
            t_re = time.time()
            for i in unlisted:
                rargs = uniq[i].get("replay")
                if rargs is None or uniq[i].get("id") == "driver-crash" or time.time() - t_re > 240:
                    keep.append(i)
                    continue
                clean = 0
                for _ in range(nruns):
                    rr = run_and_judge(prop, tier, seed, workdir, "recheck", list(rargs))
                    if rr["uniq"] and not rr["verdict"]["error"] and not rr["verdict"]["bad_agree"] and not rr["verdict"]["bad_spec"] \
                            and rr["driver_rc"] == 0:
                        clean += 1
                    else:
                        break
                if clean == nruns:
                    unstable_spec.append(uniq[i].get("id"))
                else:
                    keep.append(i)
            unlisted = keep
        if unlisted:
            c = smallest(uniq, unlisted)
            path = report_case(c, "spec", True)
            violations.append((path, ""))
        disagree = [i for i in v["bad_agree"] if i not in v["bad_spec"]]
        disagree += [i for i in v["bad_agree"] if i in v["bad_spec"] and uniq[i].get("id") in unstable_spec]
        # disagreements on inputs covered by a known finding do not count
        disagree = [i for i in disagree if not any(matches_finding(uniq[i], f) for f in kfs)]
        # A disagreement (the oracle of the property accepts the observation, the model predicted another one)
        # may come from the harness's own timing when the machine is overloaded: re-run such cases alone; the
        # ones that then agree are recorded as unstable and not counted. Spec failures are never filtered.
        unstable = []
        if disagree and len(disagree) <= 12 and not replay and (judge_ok or JUDGE_COQ[0]):
            still = []
            t_re = time.time()
            for i in disagree:
                rargs = uniq[i].get("replay")
                if not rargs or time.time() - t_re > 150:
                    still.append(i)
                    continue
                ok_runs = 0
                for _ in range(2):
                    rr = run_and_judge(prop, tier, seed, workdir, "recheck", list(rargs))
                    if rr["uniq"] and not rr["verdict"]["error"] and not rr["verdict"]["bad_agree"] and not rr["verdict"]["bad_spec"]:
                        ok_runs += 1
                if ok_runs == 2:
                    unstable.append(uniq[i].get("id"))
                else:
                    still.append(i)
            disagree = still
        if (disagree or proof_broken or corr_broken) and not violations and not replay:
            # the property is no longer shown to hold: search for a failing input
            found = None
            searched = 0
            if (judge_ok or JUDGE_COQ[0]) and not corr_broken:
                mult = getattr(prop, "SEARCH_ROUNDS", 3)
                for r in range(mult):
                    sres = run_and_judge(prop, tier, seed + 7919 * (r + 1), workdir, "search")
                    searched += len(sres["uniq"])
                    sbad = [i for i in sres["verdict"]["bad_spec"]
                            if i in sres["verdict"].get("bad_relaxed", [])
                            or not any(matches_finding(sres["uniq"][i], f) for f in kfs)]
                    if sbad:
                        found = smallest(sres["uniq"], sbad)
                        break
            if found:
                violations.append((report_case(found, "spec (found by search)", False), ""))
            else:
                what = []
                if proof_broken:
                    what.append("proof obligation: " + proof_broken)
                if corr_broken:
                    what.append("correspondence run broken: " + corr_broken)
                if disagree:
                    what.append("correspondence Judge.%s.agree fails on %d case(s)" % (pid, len(disagree)))
                payload = dict(property=pid, kind="no-failing-input-found", tier=tier, seed=seed,
                               broken=what, searched_cases=searched,
                               disagreeing_cases=[uniq[i] for i in disagree[:5]],
                               driver_replay_args=(smallest(uniq, disagree).get("replay") if disagree else None),
                               note="the model/proof no longer matches the code; no input violating the "
                                    "property's own oracle was found")
                violations.append((write_replay(pid, payload), " no-failing-input-found"))
        elif disagree and replay:
            violations.append((replay, " no-failing-input-found"))

        # 5. evidence
        tb = list(getattr(prop, "TRUSTED_BASE", []))
        tb.insert(0, "Coq 8.16.1 kernel (coqc; vm_compute used for reflection and case evaluation; no native_compute)")
        if pinfo["axioms"]:
            tb.append("axioms reported by Print Assumptions: " + ", ".join(pinfo["axioms"]))
        else:
            tb.append("Print Assumptions: all %d printed theorems 'Closed under the global context'" % pinfo["closed"])
        if coqchk_out is not None:
            tb.append("coqchk -o: " + " ".join(coqchk_out.split())[-600:])
        tb.append("tools/gofacts (Go AST -> Gen/*.v), Go harness driver %s, lib/vcheck.py" % prop.DRIVER)
        nt = v["nontrivial"]
        samples = []
        for c in uniq[:1] + uniq[len(uniq) // 2: len(uniq) // 2 + 1] + uniq[-1:]:
            samples.append({"desc": c.get("desc"), "coq": c["coq"][:600]})
        if not samples:
            samples.append({"note": "no cases were produced"})
        obligations = len(pinfo["names"]) + 1
        discharged = pinfo["discharged"] + (0 if (disagree or corr_broken) else 1)
        if proof_broken and pinfo["rc"] == 0:
            discharged = min(discharged, obligations - 1)
        ev = dict(
            property_id=pid, tier=tier, seed=seed, level="proof",
            coverage=dict(
                obligations=obligations, discharged=discharged,
                checker_cmd="make -C coq %s && coqc %s (Print Assumptions)%s" % (
                    " ".join(targets), prop.COQ_PROPS, " && coqchk -silent -o" if coqchk_out is not None else ""),
                trusted_base=tb,
                theorems=pinfo["names"],
                correspondence_obligation="Judge.%s.agree = true on every observed case" % pid,
                evaluations=len(res["cases"]), distinct=len(uniq), distinct_nontrivial=nt,
                rule=getattr(prop, "RULE", ""),
                samples=samples,
                distribution=res["summary"],
                disagreements=len(v["bad_agree"]), spec_failures=len(v["bad_spec"]),
                gofacts_missing=missing,
                exhaustive=False,
            ),
            assumptions=list(getattr(prop, "ASSUMPTIONS", [])),
            wall_s=round(time.time() - t0, 2),
            violations=len(violations),
        )
        if known_lines:
            ev["coverage"]["known_findings_seen"] = known_lines
        if unstable or unstable_spec:
            ev["coverage"]["unstable_under_load"] = unstable + unstable_spec
        if not replay:
            os.makedirs(os.path.join(ROOT, "evidence"), exist_ok=True)
            with open(os.path.join(ROOT, "evidence", pid + ".json"), "w") as f:
                json.dump(ev, f, indent=1)
        for l in known_lines:
            print(l)
        print("%s: %d cases (%d distinct, %d non-trivial), %d/%d obligations, %d disagreement(s), %d spec failure(s), %.1fs" % (
            pid, len(res["cases"]), len(uniq), nt, discharged, obligations, len(v["bad_agree"]), len(v["bad_spec"]),
            time.time() - t0))
        if violations:
            for path, suffix in violations:
                print("VIOLATION property=%s replay=%s%s" % (pid, path, suffix))
            return 1
        return 0
    finally:
        shutil.rmtree(workdir, ignore_errors=True)


def claimed_props():
    try:
        ids = open(os.path.join(ROOT, "tools", "claimed.txt")).read().split()
    except FileNotFoundError:
        ids = []
    return [load_prop(i) for i in ids]


def do_setup():
    """Build what the claimed checks need: their theorem and judge libraries and their drivers.
    Files of checks that are still under construction are built too (make -k) but cannot fail the setup."""
    t0 = time.time()
    missing = gen_facts()
    for m in missing:
        log(m)
    props = claimed_props()
    targets = []
    for p in props:
        for t in (p.COQ_PROPS + "o", p.JUDGE.replace(".", "/") + ".vo"):
            if t not in targets:
                targets.append(t)
    rc, out = coq_make(targets or None, timeout=3600)
    if rc != 0:
        print(out[-6000:])
        print("setup: coq build failed")
        return 1
    coq_make(None, timeout=3600)  # best effort for the rest
    try:
        shutil.copyfile(os.path.join(REPO, "go.sum"), os.path.join(HARNESS, "go.sum"))
    except OSError:
        pass
    os.makedirs(os.path.join(HARNESS, "bin"), exist_ok=True)
    for d in sorted(set(p.DRIVER for p in props)):
        rc, out = build_driver(d)
        if rc != 0:
            print(out[-6000:])
            print("setup: harness driver %s failed to build" % d)
            return 1
    log("setup done in %.1fs" % (time.time() - t0))
    return 0


def main():
    if len(sys.argv) < 2:
        raise SystemExit(__doc__)
    cmd = sys.argv[1]
    if cmd == "setup":
        sys.exit(do_setup())
    if cmd == "check":
        args = sys.argv[2:]
        if not args:
            raise SystemExit(__doc__)
        pid = args[0].upper()
        tier = os.environ.get("VERIF_TIER") or "quick"
        replay = None
        i = 1
        while i < len(args):
            if args[i] == "--tier":
                tier = args[i + 1]
                i += 2
            elif args[i] == "--replay":
                replay = args[i + 1]
                i += 2
            else:
                raise SystemExit("unknown argument " + args[i])
        if tier not in ("quick", "thorough"):
            tier = "quick"
        sys.exit(do_check(pid, tier, replay))
    raise SystemExit(__doc__)


if __name__ == "__main__":
    main()
